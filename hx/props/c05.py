"""C05 – Volatility, range, channel and utility indicators match their definitions."""
from ..oracles import common as cm
from ..oracles import inddefs as od

ID = "C05"
LEAN_MODULE = "HexProps.C05"
SCOPE = []
ORACLE_RULE = ("C05: indicator kind (rotating over " + ", ".join(od.KINDS[ID]) + ") x random stream (every generator style) x random parameters "
               "(periods 2..25, sometimes 50; round_value 0..8; input_value a price field) built in batch on the real class "
               "and compared reading by reading with an independent textbook reference inside a derived rounding budget, plus warm-up index"
               ", recurrence steps (ATR), the Supertrend ratchet/flip rule step by step, the threshold flag and Counter run lengths; non-trivial = at least one reading was compared")
ASSUMPTIONS = ["helper indicator series may be rounded to 4 decimals (they do not inherit round_value); the budget allows max(0.5e-4, 0.5*10^-round_value) per helper series",
               "float noise allowance 1e-10 relative to the input scale on top of the rounding budget",
               "points where the textbook formula is 0/0 (flat high-low window, zero traded volume, zero smoothed |momentum|, zero ATR) are not constrained here (C09 covers them)"]
PARTIAL = 'exact ordered field with abstract rounding. Proved: every single call of all eleven indicators, and the WHOLE SERIES of every one of them on every raw stream (engine, batch run, every append schedule) with true warm-up indices and budgets: TR, HLA, ATR (first reading at index p; p eps + eps_4 against the exact true ranges), STDEV (first at p), BBANDS, KC, Donchian, HighestLowest, Supertrend (= the textbook state machine on the stored helper readings; flips exactly on the break of the previous active band - true after fix 0d81c09), STDEV-threshold, Counter (every float carrier); C05_FULL_holds. Indicator-valued / late-starting inputs: C05_inputs_FULL as first written is refuted (bool among the first t0 inputs) and, with the input None on the first t0 candles, PROVED over every candle list for STDEV, BBANDS, STDEVTHRES (C05_inputs_partial_holds, C05_BBANDS_/STDEVTHRES_inputs_holds). KC (ATR part as on raw candles, EMA part shifted: C05_KC_inputs_holds) and Supertrend (its input feeds nothing: supertrend_input_irrelevant) likewise. Round 7: the whole-series statements of all eleven on EVERY manager (x_series_on_manager / _on_tf / _on_fillHA). Open: such managers combined with indicator-valued inputs; IEEE effects'
_case = od.make_case(ID)


def oracle(ctx):
    quick = ctx["tier"] == "quick"
    n = (16500 if quick else 66000) * ctx["boost"]
    return cm.run_cases(_case, ctx["seed"], ID, n, {"size": 80 if quick else 300})


replay = od.replay

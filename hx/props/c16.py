"""C16 – pattern and movement functions are causal and index-consistent."""
from ..oracles import analysis as oa
from ..oracles import common as cm

ID = "C16"
LEAN_MODULE = "HexProps.C16"
SCOPE = []
ORACLE_RULE = ("C16: every function of MOVEMENT_MAP and PATTERN_MAP (+ above/below) in rotation x random candle list (0..40 candles, dyadic / "
               "generated price styles, pattern shapes injected; reading columns with warm-up, sparse, None, absent, dict-valued and nested entries, "
               "ints and floats with ties) x length/lookback argument; direct cases compare f(cs,index=i), f(cs[:i+1]) and f(cs,index=i-len) at every "
               "valid i; wrapped cases compare the Amorph / Hexital-dict column built in batch with the one built under an append schedule; "
               "non-trivial = at least 2 candles (and at least one append for wrapped cases)")
ASSUMPTIONS = ["results are compared with type-and-value equality (no tolerance: the same data is evaluated three ways)",
               "a dict-valued reading named without a field counts as missing (the library's own _get_clean_readings convention); raises on it are "
               "reported under the separate clause raises-on-dict",
               "Hexital dict form passes `indicator=` through `args` because a top-level `indicator` key selects the indicator branch"]
PARTIAL = "full strength for the pattern and movement functions; since round 8 also the public helpers behind the patterns (hexital/analysis/utils.py, modelled in HexModel/Analysis/Utils.lean and tied by the component analysis.utils): default index = last index, causality for every valid non-negative index, the exact divisor (always length, also on a clamped window) - utils_default, utils_causal, utils_no_lookahead, utils_divisor(_exact); and the exact behaviour on NEGATIVE indices: the averaging helpers do not normalise them (empty window, 0 / length), only candle_shadow_long / _verylong wrap - utils_negative_index, utils_negative_index_wrap, utils_minus_one_ne_last (replayed on the library; the shipped patterns normalise the index first and are unaffected; the property quantifies over pattern and movement functions, so this is documented behaviour of the helpers, not a violation)"


def oracle(ctx):
    quick = ctx["tier"] == "quick"
    n = (4000 if quick else 40000) * ctx["boost"]
    size = {"size": 40}
    return cm.merge_results(cm.run_cases(oa.case_c16_direct, ctx["seed"], ID + "d", n, size),
                            cm.run_cases(oa.case_c16_wrapped, ctx["seed"], ID + "w", n, size))


replay = oa.replay

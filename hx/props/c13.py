"""C13 – indicators sharing candles do not interfere with one another."""
from ..oracles import common as cm
from ..oracles import facade as fa

ID = "C13"
LEAN_MODULE = "HexProps.C13"
SCOPE = []
ORACLE_RULE = ("C13: pairs/triples of distinctly named indicators without input dependency on the same candles of a real Hexital - names that contain "
               "one another (EMA_1/EMA_12, WMA_1/VWMA_10, TR/ATR_n, name_suffix twins), composites next to indicators named like their default helper "
               "series (BBANDS_n with SMA_n/STDEV_n, ATR/KC/Supertrend/ADX with TR) and random combinations - x stream x schedule; the observed member's "
               "readings are compared exactly with those it has alone, for both registration orders, after construction and every append, and "
               "immediately before/after purge/recalculate/remove_indicator/calculate(name) aimed at the others and on all later appends; "
               "non-trivial = every member and the operations run clean on their own and the observed member produces a reading")
ASSUMPTIONS = [
    "TZ=UTC for this check; naive timestamps at second resolution",
    "only top-level readings (as_list) of the observed member are compared; helper series are internal",
    "cases in which a member alone, or the operations applied to the other members alone, raise are skipped (C09 / C14 own those)",
    "names differ through parameters or name_suffix; fullname_override is generated only for names equal to a composite's internal registry aliases (signal, dx, ST_data, ...)",
]
PARTIAL = "proved for all 27 classes: operations aimed at b never touch a; presence/order independence of a's readings given disjoint names and reads (TreeOK, decidable) for a member handed to the constructor, with or without its own timeframe (presence); for a member added later by add_indicator at any point, other members coming and going, different chunking: without its own timeframe under any Hexital-level timeframe / fill / Heikin-Ashi (presence_late_covered, presence_late_ha_covered), WITH its own timeframe on a Hexital without timeframe of its own, plain or Heikin-Ashi (presence_late_tf_covered) - on well-formed streams. Both general formulations first written down are refuted (presence_FULL_v1_false: operations aimed at a itself; presence_FULL_false: unstamped candles). Open: late-added member with own timeframe on a Hexital with its own timeframe / lifespan (the result then legitimately depends on when it was added): correspondence + search"


def oracle(ctx):
    quick = ctx["tier"] == "quick"
    n = (2000 if quick else 16000) * ctx["boost"]
    return cm.run_cases(fa.case_c13, ctx["seed"], ID, n, {"size": 50 if quick else 120})


replay = fa.replay

"""C19 – reading state and converting input have no hidden side effects."""
from ..oracles import common as cm
from ..oracles import facade as fa

ID = "C19"
LEAN_MODULE = "HexProps.C19"
SCOPE = []
ORACLE_RULE = ("C19a: a standalone indicator (any kind, incl. Amorph) or a Hexital with 1..3 members on up to 3 timeframes is driven through a "
               "construction/append schedule while random read-only calls (str, repr, name, settings, has_reading, reading, prev_reading, as_list, "
               "reading_count, reading_period, candles_sum, read_candle, prev_exists; Hexital: reading, prev_reading, reading_as_list, has_reading, "
               "candles, get_candles, indicator_settings, timeframes, indicators, and the indicator calls on members) are interleaved; a deep snapshot "
               "(values, types, key order, aliasing) must be identical before/after each call and equal, after every step, to that of a twin that was "
               "never inspected.  C19b: the same objects are fed append chunks encoded as Candle / dict (lower-case, capitalised, ISO timestamp) / "
               "list (timestamp last, first, absent), bare or as lists of those; the call must be accepted, the caller's containers must be unchanged, "
               "candles and readings of every timeframe must equal those of a twin fed Candle objects, and every timeframe must equal an independent "
               "resampling of the raw stream; non-trivial = the reference twin runs clean and at least one accessor call / one append happens")
ASSUMPTIONS = [
    "TZ=UTC for this check; naive timestamps at second resolution",
    "an accessor may raise (no candles yet, index out of range, candles_sum over dict readings); it must still leave the state untouched",
    "returned live objects (the candle list, reading dicts, the indicator itself) are not mutated by the oracle",
    "Candle objects handed to append become owned by the library; only dicts and lists are required to stay unchanged",
    "ISO strings are used as timestamps only in the dict form (the list form documents datetime only)",
]
PARTIAL = "read accessors are pure functions in the model by construction, so for them the tie (accessor-interleaved components) and the deep-snapshot oracle carry the claim; proved: every input encoding of fresh candles (Candle / dict / list with timestamp first, last or absent; bare or listed) decodes to the same candles (encodings_agree), Hexital.append hands the same candles to every timeframe's manager and changes no manager configuration; since round 6 also: the ISO-string encoding decodes to the same candles (encodings_agree_iso), bad inputs are rejected as the library rejects them, purge(name) removes exactly the entries under that name (purge_name_exact), tagging changes one tag or raises (tag_at_ok / tag_at_error), Candle.__eq__ and CandleManager.__eq__ are characterised (candle_eq_iff, manager_eq_iff); that the caller's own containers are not mutated is a property of Python object identity the model cannot express (oracle only)"


def oracle(ctx):
    quick = ctx["tier"] == "quick"
    n = (1200 if quick else 10000) * ctx["boost"]
    return cm.merge_results(
        cm.run_cases(fa.case_c19_readonly, ctx["seed"], ID + "ro", n, {"size": 40 if quick else 100}),
        cm.run_cases(fa.case_c19_enc, ctx["seed"], ID + "enc", n, {"size": 30 if quick else 80}),
    )


replay = fa.replay

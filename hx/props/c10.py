"""C10 – outputs satisfy their structural invariants on every input."""
from ..oracles import common as cm
from ..oracles import framework as fw
from ..oracles import indinv as oi

ID = "C10"
LEAN_MODULE = "HexProps.C10"
SCOPE = []
ORACLE_RULE = ("C10: indicator kind (26, rotating) x random or degenerate stream x timeframe configuration (none / collapse / collapse+fill / Heikin-Ashi) x "
               "append schedule x random parameters and round_value on the real class; each listed relation is evaluated on the stored readings next to the "
               "indicator's own candles, with the rounding slack derived in hx/oracles/indinv.py; non-trivial = at least one reading produced")
ASSUMPTIONS = ["runs in which the library raises are left to C09", "candles_lifespan is not combined here (C15 owns trimming)",
               "TSI range slack comes from the reference budget and is skipped where the double-smoothed |momentum| is below twice its rounding budget",
               "TZ=UTC"]
PARTIAL = 'exact ordered field. Proved per call and now for WHOLE RUNS (every candle of every raw stream; _live forms for every append schedule on base / collapsing / gap-filled timeframes): RSI, STOCH, Aroon, ADX in [0,100] (STOCH %K/%D up to their stated budgets), TSI in [-100,100] (exact under RoundNegLe, else with a budget), ATR >= 0, sigma >= 0, Bollinger / Keltner / Donchian ordering and Donchian / HighestLowest enclosure, Supertrend shape, Counter moves; identities (Aroon osc, Donchian middle) per call, MACD histogram, Aroon oscillator and Donchian middle also for whole runs; EVERY stored top-level reading and every helper reading is a fixed point of its own rounding after any run, for every kind, every name and EVERY manager configuration incl. lifespans (rounded_every_cfg, helpers_rounded_every_cfg; Managed _data series are unrounded by design: data_not_rounded); OBV moves by 0 or +-volume for whole runs, exactly when the volumes are on the rounding grid (obv_live_moves_exact). Since round 5 also: all fourteen relations on Heikin-Ashi managers (alone, on a collapsing timeframe, with gap filling), on lifespan managers for every retained candle under the retention hypothesis of C15, and for a late-starting foreign input (None on the first t0 candles) for RSI / STDEV / BBANDS. Open (C10_FULL): inputs for the other kinds, lifespan without retention or combined with a timeframe / Heikin-Ashi, IEEE effects'


def oracle(ctx):
    quick = ctx["tier"] == "quick"
    n = (26 * (500 if quick else 2000)) * ctx["boost"]
    return cm.merge_results(cm.run_cases(oi.case, ctx["seed"], ID, n, {"size": 60 if quick else 250}),
                            cm.run_cases(fw.c10_rounded_case, ctx["seed"], ID + "r", (300 if quick else 3000) * ctx["boost"], {"size": 40}))


def replay(w):
    if "indices" in w["scenario"]:
        return fw.c10_rounded_replay(w)
    return oi.replay(w)

"""C06 – Momentum, oscillator and volume indicators match their definitions."""
from ..oracles import common as cm
from ..oracles import inddefs as od

ID = "C06"
LEAN_MODULE = "HexProps.C06"
SCOPE = []
ORACLE_RULE = ("C06: indicator kind (rotating over " + ", ".join(od.KINDS[ID]) + ") x random stream (every generator style) x random parameters "
               "(periods 2..25, sometimes 50; round_value 0..8; input_value a price field) built in batch on the real class "
               "and compared reading by reading with an independent textbook reference inside a derived rounding budget, plus warm-up index"
               ", OBV sign/tie rule step by step; non-trivial = at least one reading was compared")
ASSUMPTIONS = ["helper indicator series may be rounded to 4 decimals (they do not inherit round_value); the budget allows max(0.5e-4, 0.5*10^-round_value) per helper series",
               "float noise allowance 1e-10 relative to the input scale on top of the rounding budget",
               "points where the textbook formula is 0/0 (flat high-low window, zero traded volume, zero smoothed |momentum|, zero ATR) are not constrained here (C09 covers them)"]
PARTIAL = "exact ordered field with abstract rounding. Proved: every single call of all nine indicators, and the WHOLE SERIES of RSI, MACD, STOCH, TSI, ADX, Aroon, VWAP, OBV, ROC on every raw stream (engine, batch run, every append schedule; RSI also on a collapsing timeframe) with true warm-up indices and budgets; C06_FULL_holds. TSI's exact range [-100,100] on stored values needs rounding to be odd (RoundNegLe - true of Python's round, not implied by LawfulPyF). Chained / late-starting inputs: C06_chained_FULL as first written is refuted (bool column) and, with the input None on the first t0 candles, PROVED for RSI and ROC over every candle list holding foreign readings (C06_chained_partial_holds, C06_ROC_inputs_holds). MACD, STOCH (two-start predicate: windows on candle fields, input from t0 + p - 1), TSI likewise, ADX over candle lists holding foreign readings (C06_MACD_/TSI_/ADX_inputs_holds, stoch_inputs). Round 7: the whole-series statements of all nine on EVERY manager (x_series_on_manager / _on_tf / _on_fillHA; ROC on the domain where its reference input is never 0). Open: such managers combined with indicator-valued inputs; IEEE effects"
_case = od.make_case(ID)


def oracle(ctx):
    quick = ctx["tier"] == "quick"
    n = (13500 if quick else 54000) * ctx["boost"]
    return cm.run_cases(_case, ctx["seed"], ID, n, {"size": 80 if quick else 300})


replay = od.replay

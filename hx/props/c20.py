"""C20 – all ways of asking for a reading give the same answer."""
from ..oracles import common as cm
from ..oracles import facade as fa

ID = "C20"
LEAN_MODULE = "HexProps.C20"
SCOPE = []
ORACLE_RULE = ("C20: a standalone indicator or a Hexital with 1..3 members on up to 3 timeframes (scalar- and dict-valued kinds; steered towards "
               "readings that are legitimately 0/False: Counter, OBV/VWAP on zero volume, STDEVTHRES, Amorph over predicates and bar offsets) is driven "
               "through a schedule; then for every member, its plain name and every dotted field (plus a missing field) and EVERY index in [-n, n): "
               "Indicator.reading / read_candle / as_list, Hexital.reading / reading_as_list are compared exactly with candle.indicators, i with i-n, "
               "default-index reading and prev_reading with the last two candles, has_reading (both) with 'latest is not None', reading_count with the "
               "trailing run of non-None; non-trivial = at least one reading is present")
ASSUMPTIONS = [
    "TZ=UTC for this check; naive timestamps at second resolution",
    "only top-level names of registered members (and their dotted fields) are queried; indices are in range of the member's own candle list",
    "dotted names are used on dict-valued readings only",
    "no member keeps a default-named helper series (TR, SMA_n, STDEV_n) under the top-level name of another member, on any timeframe (C13 owns that collision; Hexital.reading searches every timeframe)",
]
PARTIAL = 'full strength for the modelled accessors, which since round 6 include read_candle, Hexital.indicator, the exact cross-manager rule of Hexital.reading, index None, utils.indexing and find_indicator (HexModel/Core/Surface.lean, tied by the correspondence)'


def oracle(ctx):
    quick = ctx["tier"] == "quick"
    n = (2000 if quick else 16000) * ctx["boost"]
    return cm.run_cases(fa.case_c20, ctx["seed"], ID, n, {"size": 40 if quick else 100})


replay = fa.replay

"""C02 – readings of closed candles are final: no look-ahead, no repainting."""
from ..oracles import common as cm
from ..oracles import framework as fw

ID = "C02"
LEAN_MODULE = "HexProps.C02"
SCOPE = []
ORACLE_RULE = "C02: see hx/oracles/framework.py (c02_case): random indicator spec (26 kinds + Amorph wrappers) x stream style x timeframe/fill x schedule on the real code"
ASSUMPTIONS = ["TZ=UTC for this check"]
PARTIAL = 'proved for every leaf indicator class (as C01) incl. collapsing timeframe and fill (closed-bucket prefix); composites: C02_FULL, covered by correspondence + search only'


def oracle(ctx):
    n = (800 if ctx["tier"] == "quick" else 3000) * ctx["boost"]
    return cm.run_cases(fw.c02_case, ctx["seed"], ID, n, {"size": 40 if ctx["tier"] == "quick" else 3 * 40})


replay = fw.c02_replay

"""C02 – readings of closed candles are final: no look-ahead, no repainting."""
from ..oracles import common as cm
from ..oracles import framework as fw

ID = "C02"
LEAN_MODULE = "HexProps.C02"
SCOPE = []
ORACLE_RULE = "C02: see hx/oracles/framework.py (c02_case): random indicator spec (26 kinds + Amorph wrappers) x stream style x timeframe/fill x schedule on the real code"
ASSUMPTIONS = ["TZ=UTC for this check"]
PARTIAL = 'proved for all 27 shipped indicator classes (C02_trees over CoveredTreeX: closed candles of an earlier snapshot are a prefix of every later snapshot, any timeframe / fill; batch_truncation_trees) with candle-attribute inputs; indicator-valued inputs and the parameter corners of C01_FULL: C02_FULL, correspondence + search only'


def oracle(ctx):
    n = (800 if ctx["tier"] == "quick" else 3000) * ctx["boost"]
    return cm.run_cases(fw.c02_case, ctx["seed"], ID, n, {"size": 40 if ctx["tier"] == "quick" else 3 * 40})


replay = fw.c02_replay

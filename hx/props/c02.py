"""C02 – readings of closed candles are final: no look-ahead, no repainting."""
from ..oracles import analysis as oa
from ..oracles import common as cm
from ..oracles import facade as fa
from ..oracles import framework as fw

ID = "C02"
LEAN_MODULE = "HexProps.C02"
SCOPE = [("ind:ALL", 300, 40), ("amorph:ALL", 150, 40), ("analysis:ALL", 100, 24), ("manager.collapse", 100, 50),
         ("hexital", 80, 40), ("hexital.ha", 60, 40)]
ORACLE_RULE = "C02: see hx/oracles/framework.py (c02_case): random indicator spec (26 kinds + Amorph wrappers) x stream style x timeframe/fill x schedule on the real code; Hexital level (hx/oracles/facade.py: case_c02_hexital): 1-4 members on their own timeframes x Hexital timeframe / fill / Heikin-Ashi x schedule, every manager of Hexital.get_candles() snapshotted after every append"
ASSUMPTIONS = ["TZ=UTC for this check"]
PARTIAL = 'proved for all 27 shipped indicator classes (C02_trees over CoveredTreeX: closed candles of an earlier snapshot are a prefix of every later snapshot, any timeframe / fill; batch_truncation_trees) with candle-attribute inputs; indicator-valued inputs on one manager (every dependent class over every source class, chains of any length, any timeframe / fill: C02_pair_more, C02_chain_more); members on different timeframes and the parameter corners of C01_FULL: C02_FULL, correspondence + search only (Hexital level: tie + oracle case_c02_hexital). Round 8: Heikin-Ashi managers - alone (every candle of the earlier snapshot is final: full prefix, batch_truncation_trees_ha), on a collapsing timeframe and with gap filling (closed buckets are a prefix), all 27 classes and chains (C02_trees_mgr, C02_trees_ha, C02_trees_haCfg, C02_chain_more_ha / _haCfg)'


def oracle(ctx):
    n = (800 if ctx["tier"] == "quick" else 3000) * ctx["boost"]
    sz = 40 if ctx["tier"] == "quick" else 3 * 40
    return cm.merge_results(cm.run_cases(fw.c02_case, ctx["seed"], ID, n, {"size": sz}),
                            cm.run_cases(fa.case_c02_hexital, ctx["seed"], ID + "hx", n // 2, {"size": sz}),
                            cm.run_cases(fw.c02_shared_case, ctx["seed"], ID + "sh", n // 4, {"size": sz}),
                            # pattern / movement wrappers on candles with exact ties and threshold-sitting bodies: batch column = live column
                            cm.run_cases(oa.case_c16_wrapped, ctx["seed"], ID + "w", n, {"size": 40, "prop": ID}))


def replay(w):
    if w.get("scenario", {}).get("check") == "c02.shared":
        return fw.c02_shared_replay(w)
    if w.get("scenario", {}).get("check") == "c02.hexital":
        return fa.replay_c02_hexital(w)
    if w.get("scenario", {}).get("mode") in ("amorph", "hexital"):
        return oa.replay(w)
    return fw.c02_replay(w)

"""C12 – gap filling yields a contiguous series of flat, zero-volume candles."""
from ..oracles import common as cm
from ..oracles import manager as om

ID = "C12"
LEAN_MODULE = "HexProps.C12"
SCOPE = [("manager.fill", 400, 60), ("manager.collapse", 100, 60)]
ORACLE_RULE = ("C12: streams with single, multiple and multi-bucket gaps x timeframe x append schedule with timeframe_fill=True on the real "
               "CandleManager vs an independent resample+fill; contiguity, flat zero-volume fills and schedule independence checked at every step")
ASSUMPTIONS = ["timestamps are naive datetimes at second resolution; TZ=UTC for this check"]
PARTIAL = ''
_case = om.make_case(ID, tf=True, fill=True)


def oracle(ctx):
    n = (300 if ctx["tier"] == "quick" else 3000) * ctx["boost"]
    return cm.run_cases(_case, ctx["seed"], ID, n, {"size": 60 if ctx["tier"] == "quick" else 200})


replay = om.replay

"""C12 – gap filling yields a contiguous series of flat, zero-volume candles."""
from ..oracles import common as cm
from ..oracles import manager as om

ID = "C12"
LEAN_MODULE = "HexProps.C12"
SCOPE = [("manager.fill", 400, 60), ("manager.collapse", 100, 60), ("manager.state", 150, 50), ("hexital", 100, 40)]
ORACLE_RULE = ("C12: streams with single, multiple and multi-bucket gaps x timeframe x append schedule with timeframe_fill=True on the real "
               "CandleManager vs an independent resample+fill; contiguity, flat zero-volume fills and schedule independence checked at every step; "
               "the same with a lifespan (the held candles are the tail of the filled series), with the Heikin-Ashi type on (the inserted candles carry the RAW previous close), and for every manager of a Hexital "
               "with timeframe_fill whose members name several timeframes")
ASSUMPTIONS = ["timestamps are naive datetimes at second resolution; TZ=UTC for this check"]
PARTIAL = 'full strength at the manager level; members of a gap-filling Hexital: every member manager = fillSpec of the raw stream at its effective timeframe under any program (member_schedule_readings)'
_case = om.make_case(ID, tf=True, fill=True)
_case_ha = om.make_case(ID, tf=True, fill=True, ha=True)
# with a lifespan the held candles are the tail of the filled series (filling happens before trimming, whatever the schedule)
_case_life = om.make_case(ID, tf=True, fill=True, life=True)


def oracle(ctx):
    n = (300 if ctx["tier"] == "quick" else 3000) * ctx["boost"]
    sz = {"size": 60 if ctx["tier"] == "quick" else 200}
    return cm.merge_results(cm.run_cases(_case, ctx["seed"], ID, n, sz), cm.run_cases(_case_ha, ctx["seed"], ID + "ha", n // 3, sz),
                            cm.run_cases(_case_life, ctx["seed"], ID + "l", n // 2, sz),
                            cm.run_cases(om.case_hexital_tfs, ctx["seed"], ID + "hx", n // 3, {**sz, "fill": True, "pid": ID}))


replay = om.replay

"""C08 – indicators inside a Hexital behave exactly like the same indicators standalone."""
from ..oracles import common as cm
from ..oracles import facade as fa

ID = "C08"
LEAN_MODULE = "HexProps.C08"
SCOPE = []
ORACLE_RULE = ("C08: random sets of 1..4 members (all 26 indicator kinds + Amorph over every analysis function; repeated and mixed nested timeframes; "
               "given as Indicator objects, config dicts, or dicts taken from `settings` of a standalone twin) x Hexital-level timeframe/fill/lifespan/"
               "Heikin-Ashi x stream x construction/append schedule on the real Hexital; after construction and after every append each member's candles "
               "and readings (as_list and reading_as_list) are compared exactly with a standalone twin of the same effective configuration, the base "
               "candles with a bare manager and with the caller's OHLCV; plus, for every kind in turn, the settings -> dict -> Hexital round trip "
               "(same class, name, arguments, settings fixed point, same readings); non-trivial = the twins run clean, a reading is produced and the "
               "schedule has an append or a multi-candle construction")
ASSUMPTIONS = [
    "TZ=UTC for this check (C18 owns time zones); naive timestamps at second resolution",
    "member names are distinct and no member keeps a default-named helper series under another member's name on the same candles (NoCollision; C13 owns collisions)",
    "every combination of Hexital-level timeframe / fill / Heikin-Ashi / lifespan with member timeframes is generated (member managers are built "
    "from the candles as given since fix 3f78fc6); members registered LATER through add_indicator only on a Hexital without timeframe and "
    "lifespan of its own (their manager is built from what the default manager holds then, which is everything only in that case)",
    "cases whose standalone twin raises (RSI without losses, STOCH on a flat window, VWMA on zero volume ...) are skipped: C09 owns totality",
    "an analysis argument called 'indicator' is passed through 'args' in the dict form (it cannot sit next to the dict's own 'indicator' key)",
    "a library call that does not return within 5 s is reported as diverged (watchdog)",
]
PARTIAL = "proved: calculation never changes OHLCV/stamps; Hexital.calculate(name) = the member's own calculate on its manager; member_standalone (a member without own timeframe ends like its standalone twin under any program); and for members given as configuration dicts / as the dict obtained from an indicator's settings: build (settings c) = c for all 27 classes on the decidable domain Valid (same tree, name, manager configuration, Member record), the dict form is the keyword constructor, missing / unknown keys are rejected - the settings code path (Indicator.settings, Amorph.settings, _build_indicator, __post_init__) is modelled and tied (component 'settings'). Open (members_FULL): members with their own timeframe vs a twin fed the raw stream"


def oracle(ctx):
    quick = ctx["tier"] == "quick"
    n = (2500 if quick else 20000) * ctx["boost"]
    size = {"size": 50 if quick else 120}
    return cm.merge_results(
        cm.run_cases(fa.case_c08, ctx["seed"], ID, n, size),
        cm.run_cases(fa.case_c08_roundtrip, ctx["seed"], ID + "rt", (440 if quick else 4400) * ctx["boost"], {}),
    )


replay = fa.replay

"""C04 – Moving averages match their definitions and are position independent."""
from ..oracles import common as cm
from ..oracles import inddefs as od

ID = "C04"
LEAN_MODULE = "HexProps.C04"
SCOPE = []
ORACLE_RULE = ("C04: indicator kind (rotating over " + ", ".join(od.KINDS[ID]) + ") x random stream (every generator style) x random parameters "
               "(periods 2..25, sometimes 50; round_value 0..8; input_value a price field, or another indicator's reading that starts late: candles that already carry it, a companion SMA calculated first on the same list, or a Hexital chain) built in batch on the real class "
               "and compared reading by reading with an independent textbook reference inside a derived rounding budget, plus warm-up index"
               ", recurrence steps against the library's own previous reading, the between-min-and-max clause and position independence (same inputs re-run at another start index); non-trivial = at least one reading was compared")
ASSUMPTIONS = ["helper indicator series may be rounded to 4 decimals (they do not inherit round_value); the budget allows max(0.5e-4, 0.5*10^-round_value) per helper series",
               "float noise allowance 1e-10 relative to the input scale on top of the rounding budget",
               "points where the textbook formula is 0/0 (flat high-low window, zero traded volume, zero smoothed |momentum|, zero ATR) are not constrained here (C09 covers them)"]
PARTIAL = "exact ordered field with abstract rounding (IEEE effects outside). Proved: every single call of SMA/EMA/RMA/WMA/VWMA/HMA incl. position independence; the WHOLE SERIES of all six on every raw stream with a candle-field input - through the engine, the batch run and every append schedule - with true warm-up indices and explicit budgets (HMA: first reading at (p-1)+(isqrt p - 1), within eps_n + 4 eps_4, not growing). Indicator-valued / late-starting inputs: C04_FULL as first written is refuted (C04_FULL_false: a bool column among the first t0 inputs counts as a reading) and, with the input None on the first t0 candles, PROVED over every candle list holding foreign readings for SMA, EMA, RMA, WMA (and VWMA on any candle list): C04_FULL_partial_holds, C04_EMA_/RMA_/WMA_inputs_holds. HMA likewise (C04_HMA_inputs_holds). Round 7: the whole-series statements of all six on EVERY manager (collapsing timeframe, gap filling, Heikin-Ashi: x_series_on_manager / _on_tf / _on_fillHA - the textbook series over the collapsed, filled, converted candles). Open: such managers combined with indicator-valued inputs"
_case = od.make_case(ID)


def oracle(ctx):
    quick = ctx["tier"] == "quick"
    n = (15000 if quick else 60000) * ctx["boost"]
    return cm.run_cases(_case, ctx["seed"], ID, n, {"size": 80 if quick else 300})


replay = od.replay

"""C14 – maintenance operations are idempotent and always converge to the batch state."""
from ..oracles import common as cm
from ..oracles import framework as fw

ID = "C14"
LEAN_MODULE = "HexProps.C14"
SCOPE = []
ORACLE_RULE = "C14: see hx/oracles/framework.py (c14_case): random indicator spec (26 kinds + Amorph wrappers) x stream style x timeframe/fill x schedule on the real code"
ASSUMPTIONS = ["TZ=UTC for this check"]
PARTIAL = 'leaf kinds, base timeframe: idempotence, recalculate, purge, calculate_index +-i, program-level convergence; purge of any tree; composites, timeframes and Hexital-level add/remove: correspondence + search'


def oracle(ctx):
    n = (600 if ctx["tier"] == "quick" else 3000) * ctx["boost"]
    sz = {"size": 40 if ctx["tier"] == "quick" else 3 * 40}
    return cm.merge_results(cm.run_cases(fw.c14_case, ctx["seed"], ID, n, sz),
                            cm.run_cases(fw.c14_hexital_case, ctx["seed"], ID + "hx", n // 2, sz))


replay = fw.c14_any_replay

"""C14 – maintenance operations are idempotent and always converge to the batch state."""
from ..oracles import common as cm
from ..oracles import framework as fw

ID = "C14"
LEAN_MODULE = "HexProps.C14"
SCOPE = []
ORACLE_RULE = "C14: see hx/oracles/framework.py (c14_case): random indicator spec (26 kinds + Amorph wrappers) x stream style x timeframe/fill x schedule on the real code"
ASSUMPTIONS = ["TZ=UTC for this check"]
PARTIAL = 'proved for every leaf indicator class (programs of calculate / calculate_index / purge / recalculate converge to the batch result, equality in PyM) and for all 13 composite trees (C14_trees over CoveredTreeX: returns-iff with the same candles; calculate_index inside programs only for the kinds where it is one row step - indexStepKindX: leaf kinds, VWAP, STDEV, RSI); base timeframe; inside a Hexital and add/remove_indicator: correspondence + search'


def oracle(ctx):
    n = (600 if ctx["tier"] == "quick" else 3000) * ctx["boost"]
    sz = {"size": 40 if ctx["tier"] == "quick" else 3 * 40}
    return cm.merge_results(cm.run_cases(fw.c14_case, ctx["seed"], ID, n, sz),
                            cm.run_cases(fw.c14_hexital_case, ctx["seed"], ID + "hx", n // 2, sz),
                            cm.run_cases(fw.c14_converge_case, ctx["seed"], ID + "cv", n // 2, sz))


replay = fw.c14_any_replay

"""C14 – maintenance operations are idempotent and always converge to the batch state."""
from ..oracles import common as cm
from ..oracles import framework as fw

ID = "C14"
LEAN_MODULE = "HexProps.C14"
SCOPE = []
ORACLE_RULE = "C14: see hx/oracles/framework.py (c14_case): random indicator spec (26 kinds + Amorph wrappers) x stream style x timeframe/fill x schedule on the real code"
ASSUMPTIONS = ["TZ=UTC for this check"]
PARTIAL = 'proved for every leaf indicator class (programs of calculate / calculate_index / purge / recalculate converge to the batch result, equality in PyM) and for the composite trees VWAP, STDEV, RSI, ATR, KC, STDEVTHRES, BBANDS, Supertrend (C14_trees: returns-iff with the same candles; calculate_index in programs only for VWAP/STDEV/RSI where it is one row step); base timeframe; MACD, STOCH, HMA, TSI, ADX and the Hexital facade operations: C14_FULL, correspondence + search only'


def oracle(ctx):
    n = (600 if ctx["tier"] == "quick" else 3000) * ctx["boost"]
    sz = {"size": 40 if ctx["tier"] == "quick" else 3 * 40}
    return cm.merge_results(cm.run_cases(fw.c14_case, ctx["seed"], ID, n, sz),
                            cm.run_cases(fw.c14_hexital_case, ctx["seed"], ID + "hx", n // 2, sz))


replay = fw.c14_any_replay

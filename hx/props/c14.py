"""C14 – maintenance operations are idempotent and always converge to the batch state."""
from ..oracles import common as cm
from ..oracles import framework as fw

ID = "C14"
LEAN_MODULE = "HexProps.C14"
SCOPE = []
ORACLE_RULE = "C14: see hx/oracles/framework.py (c14_case): random indicator spec (26 kinds + Amorph wrappers) x stream style x timeframe/fill x schedule on the real code"
ASSUMPTIONS = ["TZ=UTC for this check"]
PARTIAL = 'proved for ALL 27 classes as standalone objects, on the base timeframe AND on every collapsing timeframe with or without gap filling (every MgrSpec): programs of append / calculate / calculate_index(+-i) / purge / recalculate converge to the batch result with that configuration (C14_trees_all, C14_trees_mgr, C14_trees_tf: returns-iff with the same candles; leaf kinds on the base timeframe: equality in PyM); calculate_index(i) reproduces the finished state at EVERY index -len <= i < len, index 0 and the still-forming bucket after a merge included; calculate idempotent, purge restores the raw / collapsed stream, recalculate reproduces after any program. INSIDE A HEXITAL: any program of facade operations (append, calculate / purge / recalculate / calculate_index named or unnamed, add_indicator / remove_indicator of other members) followed by calculate() leaves a member with the batch result over everything received, on every MgrSpec incl. Heikin-Ashi (C14_member, C14_member_hexital, C14_member_tf). Round 7: the three Heikin-Ashi managers stated explicitly (C14_trees_ha / _haCfg; calculate_index_reproduces_trees_haCfg); LIFESPAN managers: the literal statement is false for calculate() after a pop (witness replayed: the batch state is the one over the candles currently held - C14_trees_lifespan, recalculate_eq_batch_held_lifespan; for recalculate() it is even the batch run with the same lifespan over everything received). Round 8: lifespan combined with a timeframe (with / without fill): recalculate() after ANY program = the batch run over the candles then held, for all 27 classes, no hypothesis (recalculate_eq_batch_held_lifespan_tf, recalculate_eq_batch_held_anycfg for every configuration); the literal statement (final calculate() = batch over the held candles) is false there as on the base timeframe (LifeTfDemo.final_ne_batch_held, replayed on the library: readings computed before a pop keep their longer history). And the PROGRAM-LEVEL statement for timeframe (+ fill) + lifespan, full operation alphabet, all 27 classes (C14_trees_lifespan_tf, C14_trees_lifespan_tf_fill): after any program the final calculate() is the batch run over the collapsed stream from the last purge point minus the popped buckets, under the retention condition of C15 (each popping append keeps treeLook closed buckets; the state in which a popped manager holds only the still-forming bucket is excluded - there the Heikin-Ashi / engine twin has no predecessor). Open: the observed member itself removed / re-added / added late, explicit end_index: correspondence + search'


def oracle(ctx):
    n = (600 if ctx["tier"] == "quick" else 3000) * ctx["boost"]
    sz = {"size": 40 if ctx["tier"] == "quick" else 3 * 40}
    return cm.merge_results(cm.run_cases(fw.c14_case, ctx["seed"], ID, n, sz),
                            cm.run_cases(fw.c14_hexital_case, ctx["seed"], ID + "hx", n // 2, sz),
                            cm.run_cases(fw.c14_converge_case, ctx["seed"], ID + "cv", n // 2, sz))


replay = fw.c14_any_replay

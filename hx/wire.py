"""Line-protocol encoding shared by the implementation runner and the model driver.

Numbers: ``i:<int>`` or ``f:<uint64 IEEE bits>``; ``n`` = None; ``b:0|1`` = bool.
A candle is six tokens ``ts o h l c v`` (ts = naive seconds since 1970-01-01, or ``-``).
"""
import struct
from datetime import datetime, timedelta

EPOCH = datetime(1970, 1, 1)


def fbits(x: float) -> int:
    return struct.unpack("<Q", struct.pack("<d", x))[0]


def bits_to_float(b: int) -> float:
    return struct.unpack("<d", struct.pack("<Q", b))[0]


def enc_num(x) -> str:
    if isinstance(x, bool):
        return "b:1" if x else "b:0"
    if isinstance(x, int):
        return f"i:{x}"
    if isinstance(x, float):
        return f"f:{fbits(x)}"
    # anything else (a complex number, a string, an object) is a reading the model can never print: encode it so that the
    # correspondence reports a difference instead of the harness crashing
    return f"x:{type(x).__name__}:{str(x)[:40].replace(' ', '_')}"


def dec_num(s: str):
    if s.startswith("i:"):
        return int(s[2:])
    if s.startswith("f:"):
        return bits_to_float(int(s[2:]))
    if s.startswith("b:"):
        return s == "b:1"
    if s == "n":
        return None
    raise ValueError(s)


def enc_scalar(x) -> str:
    if x is None:
        return "n"
    return enc_num(x)


def enc_val(v) -> str:
    if isinstance(v, dict):
        return "{" + ";".join(f"{k}={enc_scalar(v[k])}" for k in sorted(v)) + "}"
    return enc_scalar(v)


def enc_dict(d) -> str:
    return "[" + ";".join(f"{k}={enc_val(d[k])}" for k in sorted(d)) + "]"


def ts_to_secs(ts):
    if ts is None:
        return None
    d = ts - EPOCH
    if d.microseconds:
        raise ValueError("sub-second timestamp outside the modelled domain")
    return d // timedelta(seconds=1)


def secs_to_ts(s):
    return None if s is None else EPOCH + timedelta(seconds=s)


def enc_ts(ts) -> str:
    return "-" if ts is None else str(ts_to_secs(ts))


def enc_candle_tokens(c) -> str:
    """c = (ts_secs|None, o, h, l, c, v) plain tuple"""
    ts, o, h, l, cl, v = c
    return " ".join(["-" if ts is None else str(ts), enc_num(o), enc_num(h), enc_num(l), enc_num(cl), enc_num(v)])


def enc_candles(cs) -> str:
    return f"n={len(cs)} " + " ".join(enc_candle_tokens(c) for c in cs) if cs else "n=0"


def show_candle(candle) -> str:
    """canonical snapshot line of a real hexital Candle"""
    cv = candle.clean_values
    if cv:
        clean = ",".join(
            [enc_ts(cv.get("timestamp"))] + [enc_num(cv[k]) for k in ("open", "high", "low", "close", "volume")]
        )
    else:
        clean = "-"
    tag = candle.tag
    if tag not in (None, "Heikin-Ashi"):
        raise ValueError(f"unknown tag {tag!r}")
    return " ".join(
        [
            "C",
            enc_ts(candle.timestamp),
            enc_num(candle.open),
            enc_num(candle.high),
            enc_num(candle.low),
            enc_num(candle.close),
            enc_num(candle.volume),
            "1" if tag else "0",
            clean,
            "I" + enc_dict(candle.indicators),
            "S" + enc_dict(candle.sub_indicators),
        ]
    )


def snap_lines(candles):
    return [f"snap {len(candles)}"] + [show_candle(c) for c in candles]


ERRMAP = {
    "TypeError": "typeError",
    "ZeroDivisionError": "zeroDiv",
    "IndexError": "indexError",
    "ValueError": "valueError",
    "KeyError": "keyError",
    "AttributeError": "attributeError",
    "InvalidCandleOrder": "invalidCandleOrder",
    "CandleAlreadyTagged": "alreadyTagged",
    "InvalidTimeFrame": "invalidConfig",
    "InvalidIndicator": "invalidConfig",
    "InvalidAnalysis": "invalidConfig",
    "InvalidCandlestickType": "invalidConfig",
}


def enc_err(e: BaseException) -> str:
    return "err " + ERRMAP.get(type(e).__name__, "other")

"""Change-directed budget (it can never raise an alarm by itself).  `reports/ast_baseline.json` records, per function of the
library at the last state all checks passed, a hash of its AST (tools/ast_baseline.py writes it; never written at check time).
A check compares the library it runs against with that record; when functions differ, the sampled legs spend extra cases on the
indicator kinds whose files changed (`focus()`), and a changed core file simply doubles the budget of the oracle leg."""
import ast
import hashlib
import importlib.util
import json
import os

ROOT = os.path.dirname(os.path.dirname(os.path.abspath(__file__)))
BASELINE = os.path.join(ROOT, "reports", "ast_baseline.json")


def _hashes(path):
    out = {}
    try:
        tree = ast.parse(open(path).read())
    except Exception:
        return {"<unparsable>": "x"}

    def walk(node, prefix):
        for ch in ast.iter_child_nodes(node):
            if isinstance(ch, (ast.FunctionDef, ast.AsyncFunctionDef, ast.ClassDef)):
                q = f"{prefix}{ch.name}"
                if not isinstance(ch, ast.ClassDef):
                    out[q] = hashlib.sha1(ast.dump(ch, include_attributes=False).encode()).hexdigest()[:12]
                walk(ch, q + ".")

    walk(tree, "")
    # module-level statements outside functions (constants, maps)
    top = [n for n in tree.body if not isinstance(n, (ast.FunctionDef, ast.AsyncFunctionDef, ast.ClassDef, ast.Import, ast.ImportFrom))]
    out["<module>"] = hashlib.sha1("".join(ast.dump(n, include_attributes=False) for n in top).encode()).hexdigest()[:12]
    return out


def library_root():
    return os.path.dirname(importlib.util.find_spec("hexital").origin)


def snapshot(root=None):
    root = root or library_root()
    snap = {}
    for dp, _, fs in os.walk(root):
        for fn in sorted(fs):
            if fn.endswith(".py"):
                rel = os.path.relpath(os.path.join(dp, fn), os.path.dirname(root))
                snap[rel] = _hashes(os.path.join(dp, fn))
    return snap


def changed_files():
    """{relative file: [function names whose AST differs from the baseline]} (empty when nothing changed or no baseline)"""
    if not os.path.exists(BASELINE):
        return {}
    base = json.load(open(BASELINE))
    cur = snapshot()
    out = {}
    for rel in sorted(set(base) | set(cur)):
        a, b = base.get(rel, {}), cur.get(rel, {})
        diff = sorted(k for k in set(a) | set(b) if a.get(k) != b.get(k))
        if diff:
            out[rel] = diff
    return out


def focus():
    """(set of indicator kinds in the harness' spelling - spec keys like 'SUPERTREND' and class names like 'Supertrend' -, core?)"""
    ch = changed_files()
    kinds, core = set(), False
    if not ch:
        return kinds, core, ch
    from . import specs

    by_module = {}
    try:
        from hexital import indicators as I

        for key, (cls, _) in specs.KINDS.items():
            c = getattr(I, cls, None)
            if c is not None:
                by_module.setdefault(c.__module__.split(".")[-1], set()).update({key, cls})
    except Exception:
        pass
    for rel in ch:
        parts = rel.replace("\\", "/").split("/")
        if "indicators" in parts and parts[-1] != "__init__.py":
            kinds |= by_module.get(parts[-1][:-3], set())
            if parts[-1] == "amorph.py":
                kinds |= {"AMORPH", "Amorph"}
        else:
            core = True
    return kinds, core, ch

"""Correspondence scope of every property: (component, quick cases, max stream size[, options]).
Only components in a property's proof chain are listed, so a break elsewhere does not touch it."""
MA = "ind:SMA,EMA,RMA,WMA,VWMA,HMA"
VOL = "ind:TR,ATR,STDEV,BBANDS,KC,DONCHIAN,HL,HLA,SUPERTREND,STDEVTHRES,COUNTER"
MOM = "ind:RSI,MACD,ROC,STOCH,TSI,AROON,ADX,OBV,VWAP,RMA,EMA,SMA,ATR"

SCOPES = {
    "C01": [("ind:ALL", 400, 40), ("amorph:ALL", 150, 40), ("manager.collapse", 100, 50), ("manager.fill", 60, 50)],
    "C02": [("ind:ALL", 300, 40), ("amorph:ALL", 150, 40), ("analysis:ALL", 100, 24), ("manager.collapse", 100, 50)],
    "C04": [(MA, 300, 50), ("hexital", 100, 40), ("access", 60, 30), ("arith", 40, 60)],
    "C05": [(VOL, 400, 50), ("ind:SUPERTREND", 60, 50), ("analysis:highest,lowest", 60, 24), ("arith", 40, 60)],
    "C06": [(MOM, 400, 50), ("arith", 40, 60)],
    "C07": [("ind:ALL", 300, 40), ("amorph:ALL", 100, 40)],
    "C08": [("hexital", 200, 40), ("hexital.ha", 60, 40), ("hexital.life", 60, 40), ("ind:ALL", 100, 40), ("settings", 150, 12)],
    "C09": [("ind:ALL", 400, 50), ("manager.fill", 60, 50), ("arith", 40, 60)],
    "C10": [("ind:ALL", 300, 50), ("arith", 40, 60)],
    "C13": [("hexital", 300, 40)],
    "C14": [("ind:ALL", 300, 40), ("amorph:ALL", 60, 30), ("hexital", 150, 40), ("hexital.ha", 100, 40), ("hexital.life", 60, 40)],
    "C16": [("analysis:ALL", 200, 24), ("analysis.utils", 60, 24), ("amorph:ALL", 200, 40)],
    "C17": [("analysis:ALL", 300, 24), ("analysis.utils", 60, 24)],
    "C19": [("access", 150, 30), ("hexital.access", 150, 30), ("hexital", 100, 40), ("manager.malformed", 60, 30)],
    "C20": [("access", 200, 30), ("hexital.access", 200, 30)],
}

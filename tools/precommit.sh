#!/bin/bash
# builds every property module (what setup_cmd does) and reports failures; run before committing Lean changes
cd /verif/lean || exit 2
lake build HexModel hexdriver 2>&1 | grep -E "^error" | head -5
bad=0
for f in HexProps/C*.lean; do
  m=HexProps.$(basename $f .lean)
  if ! lake build $m >/tmp/precommit_$$.log 2>&1; then echo "FAIL $m"; grep -E "^error" /tmp/precommit_$$.log | head -3; bad=1; fi
done
rm -f /tmp/precommit_$$.log
[ $bad = 0 ] && echo "all property modules build"
exit $bad

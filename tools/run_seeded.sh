#!/bin/bash
# runs every seeded mutation against the quick check of the property it breaks; prints one line each
cd /verif
for d in seeded/*/; do
  id=$(basename $d); prop=${id%%-*}
  [ -n "$1" ] && [[ "$id" != $1* ]] && continue
  if ! grep -q "\"property_id\": \"$prop\"" MANIFEST.json || ! python3 -c "import json,sys; sys.exit(0 if any(c['property_id']=='$prop' for c in json.load(open('MANIFEST.json'))['checks']) else 1)"; then echo "$id: property not registered"; continue; fi
  out=$(timeout 900 tools/try_mutation.sh /verif/$d $prop 2>&1 | grep -v WARNING)
  v=$(echo "$out" | grep -c "^VIOLATION")
  nf=$(echo "$out" | grep -c "no-failing-input-found")
  na=$(echo "$out" | grep -c "DOES NOT APPLY")
  line=$(echo "$out" | grep "tier=quick" | sed 's/.*proof=/proof=/' | cut -c1-120)
  echo "$id: violation=$v nofail=$nf noapply=$na | $line"
done

#!/bin/bash
# development aid: verify a sub-agent's seeded regression independently and keep it under seeded/<id>/
# usage: ingest_seed.sh <dir with patch.diff demo.py meta.json> <id>      (e.g. /tmp/wt/C05-r3/_out/m1 C05-r3m1)
src="$1"; id="$2"
[ -f "$src/patch.diff" ] && [ -f "$src/demo.py" ] && [ -f "$src/meta.json" ] || { echo "$id: incomplete delivery"; exit 2; }
wt=$(mktemp -d /tmp/hxingest_XXXX); rmdir "$wt"
git -C /repo worktree add --detach -f "$wt" HEAD >/dev/null 2>&1 || { echo "$id: worktree failed"; exit 2; }
cleanup() { git -C /repo worktree remove --force "$wt" >/dev/null 2>&1; rm -rf "$wt"; git -C /repo worktree prune; }
trap cleanup EXIT
cd "$wt"
PYTHONPATH="$wt" PYTHONDONTWRITEBYTECODE=1 timeout 300 /venv/bin/python "$src/demo.py" >/dev/null 2>&1; clean=$?
git apply "$src/patch.diff" 2>/dev/null || { echo "$id: PATCH DOES NOT APPLY"; exit 3; }
if git diff --name-only | grep -v '^hexital/' | grep -q .; then echo "$id: patch touches files outside hexital/"; exit 3; fi
tests=$(PYTHONDONTWRITEBYTECODE=1 timeout 900 /venv/bin/python -m pytest -q -p no:cacheprovider 2>&1 | tail -1)
PYTHONPATH="$wt" PYTHONDONTWRITEBYTECODE=1 timeout 300 /venv/bin/python "$src/demo.py" >/dev/null 2>&1; mut=$?
echo "$id: demo clean=$clean mutated=$mut tests: $tests"
if [ "$clean" = 0 ] && [ "$mut" != 0 ] && echo "$tests" | grep -q "325 passed" && ! echo "$tests" | grep -q "failed"; then
  mkdir -p /verif/seeded/$id
  cp "$src/patch.diff" "$src/demo.py" /verif/seeded/$id/
  python3 - "$src/meta.json" "/verif/seeded/$id/meta.json" "$clean" "$mut" "$tests" <<'EOF'
import json, sys
m = json.load(open(sys.argv[1]))
m["verified"] = {"demo_exit_unchanged": int(sys.argv[3]), "demo_exit_changed": int(sys.argv[4]), "suite_with_change": sys.argv[5].strip(),
                 "how": "tools/ingest_seed.sh: fresh scratch worktree of /repo HEAD, demo, git apply, full pytest, demo"}
json.dump(m, open(sys.argv[2], "w"), indent=1)
EOF
  echo "$id: KEPT"
else
  echo "$id: REJECTED"
fi

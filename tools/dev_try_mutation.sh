#!/bin/bash
# development aid: apply a seeded mutation to /repo, run tie+oracle legs (tools/dev_legs.py) for the given properties, revert
d="$1"; shift
cd /repo || exit 2
if ! git diff --quiet; then echo "repo dirty"; exit 2; fi
if ! git apply --check "$d/patch.diff" 2>/dev/null; then echo "PATCH DOES NOT APPLY: $d"; exit 3; fi
git apply "$d/patch.diff"
trap 'git -C /repo checkout -- . ' EXIT
(cd /verif && PYTHONPATH=/repo:/verif TZ=UTC timeout 600 /venv/bin/python tools/dev_legs.py "$@" 2>&1 | grep -v WARNING)

#!/bin/bash
# usage: try_mutation.sh <mutation dir with patch.diff> <prop> [<prop> ...]   (applies to /repo, runs quick checks, reverts)
d="$1"; shift
cd /repo || exit 2
if ! git diff --quiet; then echo "repo dirty"; exit 2; fi
if ! git apply --check "$d/patch.diff" 2>/dev/null; then echo "PATCH DOES NOT APPLY: $d"; exit 3; fi
git apply "$d/patch.diff"
trap 'git -C /repo checkout -- . ; git -C /repo status --short | grep -v "^??" ' EXIT
if [ -f "$d/demo.py" ]; then (cd /repo && PYTHONPATH=/repo /venv/bin/python "$d/demo.py" >/dev/null 2>&1; echo "demo exit (mutated): $?"); fi
for p in "$@"; do
  (cd /verif && ./check "$p" --tier quick 2>&1 | grep -E "VIOLATION|KNOWN|exit [0-9]|Traceback|Error" | cut -c1-250)
done

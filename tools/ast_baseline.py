#!/usr/bin/env python3
"""Writes reports/ast_baseline.json: per-function AST hashes of /repo/hexital as it stands (run it when all checks pass on the
tree, e.g. after a fix: commit; the checks only READ this file).  usage: PYTHONPATH=/repo:/verif /venv/bin/python tools/ast_baseline.py"""
import json
import os
import sys

sys.path.insert(0, os.path.dirname(os.path.dirname(os.path.abspath(__file__))))
from hx import changed  # noqa: E402

snap = changed.snapshot()
os.makedirs(os.path.dirname(changed.BASELINE), exist_ok=True)
json.dump(snap, open(changed.BASELINE, "w"), indent=0, sort_keys=True)
print(f"{len(snap)} files, {sum(len(v) for v in snap.values())} units -> {changed.BASELINE}")

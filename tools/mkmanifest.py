#!/usr/bin/env python3
"""Regenerates MANIFEST.json from the property modules under hx/props (run from /verif)."""
import importlib
import json
import os
import sys

ROOT = os.path.dirname(os.path.dirname(os.path.abspath(__file__)))
sys.path.insert(0, ROOT)
sys.path.insert(0, "/repo")
ids = [json.loads(l)["id"] for l in open(os.path.join(ROOT, "properties.jsonl"))]
PENDING = json.load(open(os.path.join(ROOT, "tools", "pending.json"))) if os.path.exists(os.path.join(ROOT, "tools", "pending.json")) else {}
checks, na = [], []
for i in ids:
    path = os.path.join(ROOT, "hx", "props", i.lower() + ".py")
    if not os.path.exists(path):
        na.append({"property_id": i, "reason": PENDING.get(i, "check not built yet (work in progress; see DESIGN.md section 12)")})
        continue
    m = importlib.import_module(f"hx.props.{i.lower()}")
    if not os.path.exists(os.path.join(ROOT, "lean", *m.LEAN_MODULE.split(".")) + ".lean"):
        na.append({"property_id": i, "reason": PENDING.get(i, "Lean property module not committed yet (model, correspondence and oracle exist; proofs in progress)")})
        continue
    partial = getattr(m, "PARTIAL", "")
    checks.append({
        "property_id": i,
        "quick_cmd": f"./check {i} --tier quick",
        "thorough_cmd": f"./check {i} --tier thorough",
        "evidence_file": f"evidence/{i}.json",
        "replay_cmd_template": f"./check {i} --replay {{path}}",
        "engine": "lean-model+correspondence+search",
        "level_claimed": {
            "category": "proof",
            "text": (m.__doc__ or "").strip() + " Lean 4 theorems in lean/" + m.LEAN_MODULE.replace(".", "/") + ".lean about the hand-written model, "
                    "proved for every input/schedule in their stated domain; model tied to /repo by bit-exact correspondence; a model-independent oracle "
                    "search on the real code supplies the replay when anything breaks." + (" PARTIAL: " + partial if partial else ""),
            "design_ref": "DESIGN.md section 7, " + i,
        },
        "level_note": "Trusted: Lean kernel + axioms {propext, Classical.choice, Quot.sound}; the statements in HexProps; the sampled correspondence "
                      "harness (hx/corr.py) and its generators; Lean Float/libm = CPython floats; Python object model abstracted to values. "
                      + "; ".join(getattr(m, "ASSUMPTIONS", [])),
        "technique": "Lean 4 proof over hand-written model + differential correspondence with the Python code + oracle search for replays",
    })
man = {
    "version": 1,
    "setup_cmd": "cd lean && lake build HexModel hexdriver && for f in HexProps/C*.lean; do lake build HexProps.$(basename $f .lean) || echo \"setup: $f did not build (its check will report it)\"; done",
    "hooks": {"guard": "MERLINR_HEXITAL_VERIF",
              "enable": "no source hooks: all instrumentation is external (sys.setprofile, recording list, TZ env)",
              "baseline_off_cmd": "cd /repo && /venv/bin/python -m pytest -ra -q -p no:cacheprovider --timeout=900",
              "source_commits": [], "add_only": True},
    "engines": [
        {"name": "lean-model", "path": "lean/", "serves_properties": [c["property_id"] for c in checks],
         "kind_free_text": "Lean 4 executable model (HexModel), lemmas (HexProofs), property theorems (HexProps); lake build + #print axioms audit"},
        {"name": "correspondence", "path": "hx/corr.py", "serves_properties": [c["property_id"] for c in checks],
         "kind_free_text": "differential run of generated operation lists through the real package and the compiled model driver, bit-exact diff"},
        {"name": "search", "path": "hx/oracles/", "serves_properties": [c["property_id"] for c in checks],
         "kind_free_text": "model-independent property oracles on the real code; produce minimised replays"},
    ],
    "checks": checks,
    "notes": "Every check = proof leg (lake build + axiom audit) + tie leg (correspondence over the property's scope) + oracle leg; see DESIGN.md section 6. "
             "known_findings.json lists fixed/open genuine defects.",
    "not_applicable": na,
}
json.dump(man, open(os.path.join(ROOT, "MANIFEST.json"), "w"), indent=1)
print("checks:", [c["property_id"] for c in checks], "pending:", [n["property_id"] for n in na])

#!/usr/bin/env python3
"""Development aid (NOT a check, registered nowhere, writes no evidence, gives no verdict on proofs):
runs only the correspondence leg and the oracle leg of a property and prints what they saw.
Usage (from /verif): PYTHONPATH=/repo:/verif TZ=UTC /venv/bin/python tools/dev_legs.py C01 [C02 ...]"""
import collections
import importlib
import sys
import time

from hx import corr, scopes

for pid in sys.argv[1:]:
    m = importlib.import_module("hx.props." + pid.lower())
    t = time.time()
    dis = 0
    cases = 0
    first = None
    for entry in (m.SCOPE or scopes.SCOPES.get(pid, [])):
        comp, n, size = entry[:3]
        opts = entry[3] if len(entry) > 3 else {}
        if opts.get("thorough_only"):
            continue
        r = corr.run_component(comp, 1, n, size, tz=opts.get("tz"))
        cases += r["cases"]
        dis += len(r["disagreements"])
        if r["disagreements"] and first is None:
            first = (comp, r["disagreements"][0]["case"], r["disagreements"][0]["diff"])
    o = m.oracle({"seed": 1, "tier": "quick", "boost": 1})
    sigs = collections.Counter(v["signature"] for v in o["violations"])
    print(f"{pid}: tie cases={cases} disagreements={dis} | oracle evals={o['evaluations']} violations={len(o['violations'])} | {time.time() - t:.1f}s")
    if first:
        print("   first tie disagreement:", first[0], "case", first[1], str(first[2])[:200])
    for s, c in sorted(sigs.items())[:8]:
        print("   ", c, s)

#!/bin/bash
# runs every registered quick check with several seeds on the current tree; prints failures (exit != 0)
cd /verif
props=$(python3 -c "import json;print(' '.join(c['property_id'] for c in json.load(open('MANIFEST.json'))['checks']))")
for sd in ${@:-2 3 4 5 6 7}; do
  for p in $props; do
    out=$(VERIF_SEED=$sd timeout 900 ./check $p --tier quick 2>&1 | grep -v WARNING)
    rc=$?
    line=$(echo "$out" | tail -1)
    case "$line" in *"exit 0") ;; *) echo "seed=$sd $p: $line"; echo "$out" | grep -E "VIOLATION|KNOWN" | head -2;; esac
  done
done
echo sweep-done

#!/usr/bin/env python3
"""How much of the library does the tie reach?  Runs every correspondence component (the union of all property
scopes) in-process under line+branch coverage of /repo/hexital and reports, per file, the statements that no
correspondence scenario executed.  Those lines are code the model is NOT tied to (only the oracles may reach them).

usage (from /verif):  PYTHONPATH=/repo:/verif TZ=UTC /venv/bin/python tools/tie_coverage.py [--n 150] [--out reports/tie_coverage.json]
A measurement aid: it decides no property.  Its report is committed as reports/tie_coverage.json and summarised in DESIGN.md.
"""
import argparse
import json
import os
import sys

import coverage

ROOT = os.path.dirname(os.path.dirname(os.path.abspath(__file__)))
sys.path.insert(0, ROOT)


def main():
    ap = argparse.ArgumentParser()
    ap.add_argument("--n", type=int, default=150)
    ap.add_argument("--seed", type=int, default=1)
    ap.add_argument("--out", default=os.path.join(ROOT, "reports", "tie_coverage.json"))
    a = ap.parse_args()
    import importlib.util

    src = os.path.dirname(importlib.util.find_spec("hexital").origin)   # located, not imported: definitions count as executed
    cov = coverage.Coverage(source=[src], branch=True, data_file=None)
    cov.start()
    from hx import corr, scopes

    comps = []
    for pid, entries in scopes.SCOPES.items():
        for e in entries:
            if e[0] not in [c for c, _ in comps]:
                comps.append((e[0], e[2]))
    # scopes that live in the property modules
    import importlib

    for i in range(1, 21):
        m = importlib.import_module(f"hx.props.c{i:02d}")
        for e in (m.SCOPE or []):
            if e[0] not in [c for c, _ in comps]:
                comps.append((e[0], e[2]))
    ran = []
    for comp, size in comps:
        r = corr.run_component(comp, a.seed, a.n, size, workers=1)
        ran.append({"component": comp, "cases": r["cases"], "disagreements": len(r["disagreements"])})
    cov.stop()
    report = {"components": ran, "files": {}, "seed": a.seed, "cases_per_component": a.n}
    tot_s = tot_m = 0
    for f in sorted(cov.get_data().measured_files()):
        _, stmts, _, missing, _ = cov.analysis2(f)
        rel = os.path.relpath(f, os.path.dirname(src))
        tot_s += len(stmts)
        tot_m += len(missing)
        lines = open(f).read().split("\n")
        report["files"][rel] = {"statements": len(stmts), "missed": len(missing),
                                "missed_lines": [{"line": n, "text": lines[n - 1].strip()[:100]} for n in missing]}
    # files never imported/executed at all
    for dp, _, fs in os.walk(src):
        for fn in fs:
            if fn.endswith(".py"):
                rel = os.path.relpath(os.path.join(dp, fn), os.path.dirname(src))
                report["files"].setdefault(rel, {"statements": None, "missed": None, "note": "never executed"})
    report["total_statements"] = tot_s
    report["total_missed"] = tot_m
    report["line_coverage"] = round(1 - tot_m / max(1, tot_s), 4)
    with open(a.out, "w") as f:
        json.dump(report, f, indent=1)
    print(f"tie line coverage of hexital/: {report['line_coverage']:.1%} ({tot_s - tot_m}/{tot_s} statements)")
    for rel, d in report["files"].items():
        if d.get("missed"):
            print(f"  {rel}: {d['missed']} missed: " + ", ".join(str(x["line"]) for x in d["missed_lines"][:25]))


if __name__ == "__main__":
    main()

#!/usr/bin/env python3
"""Development aid (not a check): runs every seeded regression against the quick check of the
property it breaks, in parallel, each in its own scratch worktree of /repo (outside /repo and
/verif, removed afterwards).  /repo itself is never touched; HX_REPO / HX_OUT redirect the check.

usage: tools/par_seeded.py [-j N] [--tier quick] [--props C01,C02] [prefix ...]
prints one line per seeded regression:  <id>: violation=0|1 nofail=0|1 | <summary line of the check>
"""
import argparse
import concurrent.futures as cf
import json
import os
import shutil
import subprocess
import sys
import tempfile

VERIF = os.path.dirname(os.path.dirname(os.path.abspath(__file__)))


def run_one(sid, props, tier, base):
    d = os.path.join(VERIF, "seeded", sid)
    wt = os.path.join(base, sid)
    out = os.path.join(base, sid + ".out")
    res = {"id": sid, "lines": []}
    try:
        subprocess.run(["git", "-C", "/repo", "worktree", "add", "--detach", "-f", wt, "HEAD"], capture_output=True, check=True)
        p = subprocess.run(["git", "-C", wt, "apply", os.path.join(d, "patch.diff")], capture_output=True, text=True)
        if p.returncode != 0:
            res["lines"].append("PATCH DOES NOT APPLY")
            return res
        for prop in props:
            env = dict(os.environ, HX_REPO=wt, HX_OUT=out)
            p = subprocess.run([os.path.join(VERIF, "check"), prop, "--tier", tier], capture_output=True, text=True, env=env, timeout=3000)
            o = p.stdout + p.stderr
            v = sum(1 for l in o.split("\n") if l.startswith("VIOLATION"))
            nf = sum(1 for l in o.split("\n") if l.startswith("VIOLATION") and "no-failing-input-found" in l)
            summ = next((l for l in o.split("\n") if "tier=" in l and "proof=" in l), o.strip().split("\n")[-1] if o.strip() else "")
            summ = summ[summ.find("proof="):][:130] if "proof=" in summ else summ[:130]
            res["lines"].append(f"{prop}: violation={1 if v else 0} nofail={1 if nf else 0} rc={p.returncode} | {summ}")
    except Exception as e:  # noqa
        res["lines"].append("ERROR " + repr(e)[:200])
    finally:
        subprocess.run(["git", "-C", "/repo", "worktree", "remove", "--force", wt], capture_output=True)
        shutil.rmtree(wt, ignore_errors=True)
        shutil.rmtree(out, ignore_errors=True)
    return res


def main():
    ap = argparse.ArgumentParser()
    ap.add_argument("-j", type=int, default=6)
    ap.add_argument("--tier", default="quick")
    ap.add_argument("--props", default="")
    ap.add_argument("prefix", nargs="*")
    a = ap.parse_args()
    ids = sorted(d for d in os.listdir(os.path.join(VERIF, "seeded")) if os.path.isdir(os.path.join(VERIF, "seeded", d)))
    if a.prefix:
        ids = [i for i in ids if any(i.startswith(p) for p in a.prefix)]
    base = tempfile.mkdtemp(prefix="hxseed_")
    jobs = []
    with cf.ThreadPoolExecutor(a.j) as ex:
        for sid in ids:
            meta = json.load(open(os.path.join(VERIF, "seeded", sid, "meta.json")))
            props = a.props.split(",") if a.props else [meta.get("property") or sid.split("-")[0]]
            jobs.append(ex.submit(run_one, sid, props, a.tier, base))
        for j in jobs:
            r = j.result()
            for l in r["lines"]:
                print(f"{r['id']}: {l}", flush=True)
    subprocess.run(["git", "-C", "/repo", "worktree", "prune"], capture_output=True)
    shutil.rmtree(base, ignore_errors=True)


if __name__ == "__main__":
    main()
